(* C12 - a diamond commits at most once, from completed splits only.
   Statements only; proofs are in Proofs/DiamondProofs.v.  The protocol model (Model/Diamond.v) is
   replayed on schedules observed on the implementation, whose actors are gated at every
   decision-relevant store access, on every run.

   The first clause of the property - at most one bundle per diamond - is FALSE of the protocol as
   implemented: C12_at_most_one_bundle_refuted.  Both witnesses are replayed on the implementation
   on every run and are recorded as a known finding.  Everything else is proved. *)
From Coq Require Import List String NArith Bool.
From DM Require Import Model.Diamond Proofs.DiamondProofs Proofs.DiamondSerial Proofs.DiamondCollect.
Import ListNotations.
Open Scope list_scope.

(* Two commits that both read the diamond as ready before either writes its final descriptor both
   publish a bundle. *)
Theorem C12_at_most_one_bundle_refuted :
  exists actors es, all_fresh actors /\ List.length (d_bundles (run es (init actors))) = 2.
Proof. exact at_most_one_bundle_refuted. Qed.
Print Assumptions C12_at_most_one_bundle_refuted.

(* A commit that crashes between the bundle descriptor and the diamond's final descriptor, retried. *)
Theorem C12_at_most_one_bundle_refuted_by_retry :
  exists actors es, all_fresh actors /\ List.length (d_bundles (run es (init actors))) = 2.
Proof. exact at_most_one_bundle_refuted_by_retry. Qed.
Print Assumptions C12_at_most_one_bundle_refuted_by_retry.

(* What does hold of "at most once": the diamond's final descriptor is written at most once, under
   every schedule of every set of actors, crashes included... *)
Theorem C12_terminal_written_once : forall es st t, d_term st = Some t -> d_term (run es st) = Some t.
Proof. exact terminal_written_once. Qed.
Print Assumptions C12_terminal_written_once.

(* ... and a commit that starts once the diamond is done or canceled never publishes a bundle: every
   bundle comes from a commit that read the diamond as ready before it was terminated. *)
Theorem C12_late_commit_writes_no_bundle : forall es i st t c w, d_term st = Some t ->
  nth_error (d_actors st) i = Some (ACommit CReady c w) -> (forall srcs, ~ In (i, srcs) (d_bundles st)) ->
  forall srcs, ~ In (i, srcs) (d_bundles (run es st)).
Proof. exact late_commit_writes_no_bundle. Qed.
Print Assumptions C12_late_commit_writes_no_bundle.

(* ... so that commits that do not overlap - each runs from its first to its last step with no other
   actor in between and without crashing - produce at most one bundle, whatever split runs and
   cancellations (and their crashes) do around them. *)
Theorem C12_serial_commits_one_bundle : forall items actors, all_fresh actors ->
  items_ok_run items (init actors) ->
  List.length (d_bundles (fold_left apply_item items (init actors))) <= 1.
Proof. exact serial_commits_one_bundle. Qed.
Print Assumptions C12_serial_commits_one_bundle.

(* Commits, cancellations and new split runs are refused once the diamond is done or canceled: the
   actor's first access is refused, it writes nothing and takes no further step. *)
Theorem C12_refused_once_terminated : forall i st a t, d_term st = Some t -> nth_error (d_actors st) i = Some a ->
  next_action a = Some KReady ->
  snd (step i st) = false /\ store_eq (fst (step i st)) st /\
  exists a', nth_error (d_actors (fst (step i st))) i = Some a' /\ next_action a' = None.
Proof. exact refused_once_terminated. Qed.
Print Assumptions C12_refused_once_terminated.

(* A completed split cannot be rerun, and the run recorded as completing it never changes. *)
Theorem C12_rerun_refused : forall i st s g w g0, done_of s st = Some g0 ->
  nth_error (d_actors st) i = Some (ASplit s g SReadSplit w) ->
  snd (step i st) = false /\ store_eq (fst (step i st)) st /\
  nth_error (d_actors (fst (step i st))) i = Some (ASplit s g SFin w).
Proof. exact rerun_refused. Qed.
Print Assumptions C12_rerun_refused.

Theorem C12_split_completed_once : forall es st s g, done_of s st = Some g -> done_of s (run es st) = Some g.
Proof. exact split_completed_once. Qed.
Print Assumptions C12_split_completed_once.

(* Every bundle ever published - under every interleaving and crash - holds files of runs recorded as
   completing their split only, and those runs wrote all their file lists. *)
Theorem C12_bundle_sources_recorded : forall actors es b srcs s g, all_fresh actors ->
  In (b, srcs) (d_bundles (run es (init actors))) -> In (s, g) srcs ->
  In (s, g) (d_done (run es (init actors))) /\ In (s, g) (d_lists (run es (init actors))).
Proof. exact bundle_sources_recorded. Qed.
Print Assumptions C12_bundle_sources_recorded.

(* Published bundles are never altered by the protocol. *)
Theorem C12_bundles_stable : forall es st b, In b (d_bundles st) -> In b (d_bundles (run es st)).
Proof. exact bundles_stable. Qed.
Print Assumptions C12_bundles_stable.

(* the bundle of a commit holds exactly what the commit collected, and that is exactly the set of runs
   recorded as completing their split at the moment it collected: the collection step takes d_done as
   it is, nothing changes the collection afterwards, and every bundle descriptor carries the
   collection of the commit that wrote it *)
Theorem C12_collect_exact : forall i st c w ds, i < List.length (d_actors st) ->
  nth_error (d_actors st) i = Some (ACommit CCollect c w) -> d_done st = ds -> ds <> [] ->
  nth_error (d_actors (fst (step i st))) i = Some (ACommit CWriteLists ds w) /\
  d_done (fst (step i st)) = ds /\ d_bundles (fst (step i st)) = d_bundles st.
Proof. exact collect_exact. Qed.
Print Assumptions C12_collect_exact.

Theorem C12_collection_frozen : forall es st i pc c w,
  nth_error (d_actors st) i = Some (ACommit pc c w) -> past_collect pc = true ->
  exists pc' w', nth_error (d_actors (run es st)) i = Some (ACommit pc' c w') /\ past_collect pc' = true.
Proof. exact collection_frozen. Qed.
Print Assumptions C12_collection_frozen.

Theorem C12_bundle_is_the_collection : forall actors es b srcs,
  In (b, srcs) (d_bundles (run es (init actors))) ->
  exists pc w, nth_error (d_actors (run es (init actors))) b = Some (ACommit pc srcs w) /\ past_collect pc = true.
Proof. exact bundle_is_the_collection. Qed.
Print Assumptions C12_bundle_is_the_collection.
