(* C16 - the local file system store behaves like an object store.
   Statements only; proofs are in Proofs/LocalFSProofs.v, Base/Paging.v, Base/StrOrder.v. *)
From Coq Require Import List String NArith Bool Sorted.
From DM Require Import Base.Str Base.StrOrder Base.Paging Base.Listing Model.LocalFS Proofs.LocalFSProofs.
Import ListNotations.
Open Scope list_scope.

(* reads return the last written bytes; a create-if-absent write on an existing key changes nothing *)
Theorem C16_get_after_put : forall k v e s r s', lput k v e s = (r, s') ->
  (r = LOk -> lget k s' = Some v) /\ (r = LExists -> s' = s /\ e = true /\ lget k s <> None) /\ r <> LNotFound.
Proof. exact get_after_put. Qed.
Print Assumptions C16_get_after_put.

Theorem C16_put_frame : forall k v e s r s' k', lput k v e s = (r, s') -> k <> k' -> lget k' s' = lget k' s.
Proof. exact put_frame. Qed.
Print Assumptions C16_put_frame.

Theorem C16_put_if_absent : forall k v s, fst (lput k v true s) = LOk <-> lget k s = None.
Proof. exact put_if_absent_iff. Qed.
Print Assumptions C16_put_if_absent.

Theorem C16_delete : forall k s k', lget k' (ldelete k s) = if String.eqb k' k then None else lget k' s.
Proof. exact delete_spec. Qed.
Print Assumptions C16_delete.

(* deleting a name that is not a key (the directory part of keys, for instance) changes nothing *)
Theorem C16_delete_nonkey : forall k s, lget k s = None -> ldelete k s = s.
Proof. exact delete_nonkey. Qed.
Print Assumptions C16_delete_nonkey.

(* an emptied store holds no key and accepts every write again *)
Theorem C16_clear : forall s k v e, lget k (lclear s) = None /\ lput k v e (lclear s) = (LOk, [(k, v)]).
Proof. exact clear_spec. Qed.
Print Assumptions C16_clear.

(* a listing holds exactly the names under the prefix (cut after the first delimiter when one is
   given), each once, in byte-lexicographic order *)
Theorem C16_listing_exact : forall p d s x,
  In x (list_all p d s) <-> exists k, In k (map fst s) /\ starts_with p k = true /\ x = cut p d k.
Proof. exact list_all_exact. Qed.
Print Assumptions C16_listing_exact.

Theorem C16_listing_sorted : forall p d s, StronglySorted slt (list_all p d s).
Proof. exact list_all_sorted. Qed.
Print Assumptions C16_listing_sorted.

(* any page size: the pages, followed through their continuation tokens, are the listing *)
Theorem C16_paging : forall p d s count, 0 < count ->
  all_pages exact_seek (S (List.length (list_all p d s))) None count (list_all p d s) = Some (list_all p d s).
Proof. exact paging_exact. Qed.
Print Assumptions C16_paging.

(* create-if-absent under any order of the writers' exclusive opens: one winner, whose bytes stay *)
Theorem C16_excl : forall k w ws s, lget k s = None ->
  fst (excl_writers k (w :: ws) s) = LOk :: map (fun _ => LExists) ws /\
  lget k (snd (excl_writers k (w :: ws) s)) = Some w.
Proof. exact excl_one_winner. Qed.
Print Assumptions C16_excl.
