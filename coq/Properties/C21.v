(* C21 - sidecar parameters survive environment-variable encoding.
   Statements only; proofs are in Proofs/ParamProofs.v. *)
From Coq Require Import List NArith Bool String.
From DM Require Import Model.Param Proofs.ParamProofs.
Import ListNotations.
Open Scope N_scope.

(* For every FUSE parameter set (any code points in any value, any number of bundles): when the
   encoder succeeds, the globals variable and every bundle variable decode - with the separators
   read from their first two characters, by the documented decoder - to exactly the flags and
   the non-empty parameters that were given, in order. *)
Theorem C21_fuse_roundtrip : forall p envs, fuse_env p = Some envs ->
  exists bs g,
    envs = combine (map (fun b => cp "dm_fuse_bd_" ++ fb_name b) (fp_bundles p)) bs ++ [(cp "dm_fuse_opts", g)] /\
    dec_string g = Some (expected (fuse_global_flags p) (fuse_global_fields p)) /\
    Forall2 (fun b e => dec_string e = Some (expected [] (fb_fields b))) (fp_bundles p) bs.
Proof. exact fuse_env_roundtrip. Qed.
Print Assumptions C21_fuse_roundtrip.

Theorem C21_pg_roundtrip : forall p envs, pg_env p = Some envs ->
  exists ds g,
    envs = combine (map (fun d => cp "dm_pg_db_" ++ pd_name d) (pp_dbs p)) ds ++ [(cp "dm_pg_opts", g)] /\
    dec_string g = Some (expected (pg_global_flags p) (pg_global_fields p)) /\
    Forall2 (fun d e => dec_string e = Some (expected [] (pd_fields d))) (pp_dbs p) ds.
Proof. exact pg_env_roundtrip. Qed.
Print Assumptions C21_pg_roundtrip.

(* The general statement both rest on: any separators that differ, are not '.', and occur in no
   flag, name or value give a string that decodes to the flags and non-empty fields. *)
Theorem C21_enc_dec : forall i k flags fields e,
  i <> k -> i <> dot_char -> k <> dot_char ->
  (forall f, In f flags -> nonempty f = true /\ sep_free i k f) ->
  (forall nv, In nv fields -> nonempty (fst nv) = true /\ sep_free i k (fst nv)) ->
  enc_string i k flags fields = Some e ->
  dec_string e = Some (expected flags fields).
Proof. exact enc_dec. Qed.
Print Assumptions C21_enc_dec.

(* The chosen separators never occur in a value, so the encoder never has to refuse. *)
Theorem C21_never_refuses : forall values i k flags fields,
  set_separators values = (i, k) ->
  (forall nv, In nv fields -> In (snd nv) values) ->
  enc_string i k flags fields <> None.
Proof. exact enc_never_refuses. Qed.
Print Assumptions C21_never_refuses.

(* Recorded defect of the pinned tree (repaired by a fix: commit): choosing separators that avoid
   only the values lets a separator coincide with a parameter name. *)
Theorem C21_values_only_separators_refuted :
  let v := map N.of_nat (seq 48 35) in
  let '(i, k) := set_separators_old [cp "true"; v] in
  exists e, enc_string i k [cp "S"] [(cp "c", v)] = Some e /\
            dec_string e <> Some (expected [cp "S"] [(cp "c", v)]).
Proof. exact old_separators_refuted. Qed.
Print Assumptions C21_values_only_separators_refuted.
