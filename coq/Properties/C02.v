(* C02 - object keys are a deterministic tree hash of the content.
   Statements only; proofs are in Proofs/CafsWriter.v and Proofs/CafsPut.v. *)
From Coq Require Import List NArith Arith Bool.
From DM Require Import Model.Cafs Proofs.CafsWriter Proofs.CafsStore Proofs.CafsPut.
Import ListNotations.

(* The key returned by Put is tree_key of the content: a function of the content and the leaf
   size only - for every chunking of the source and every prior store content. *)
Theorem C02_key_function : forall H L, 0 < L -> forall chunks s,
  exists r, put H L chunks s = Ok r /\
    pr_written r = length (concat chunks) /\
    pr_key r = tree_key H L (concat chunks) /\
    pr_keys r = keys_of_leaves H L 0 (split_leaves L (concat chunks)).
Proof. exact put_key. Qed.
Print Assumptions C02_key_function.

(* Storing content the store already holds returns the same key, reports a duplicate and changes
   no blob. *)
Theorem C02_duplicate : forall H L, 0 < L -> (forall l o d b x, length (H l o d b x) = KS) ->
  forall chunks s r,
  holds H L s (concat chunks) -> put H L chunks s = Ok r ->
  pr_found r = true /\ (forall k, lookup k (pr_store r) = lookup k s) /\ pr_key r = tree_key H L (concat chunks).
Proof. exact put_duplicate. Qed.
Print Assumptions C02_duplicate.

(* No Put ever changes a non-empty blob that is already in the store - whatever it belongs to,
   shared leaves included (no hash assumption needed). *)
Theorem C02_others_intact : forall H L, 0 < L -> forall chunks s r k x b,
  put H L chunks s = Ok r -> lookup k s = Some (x :: b) -> lookup k (pr_store r) = Some (x :: b).
Proof. exact put_keeps_blobs. Qed.
Print Assumptions C02_others_intact.

(* Different contents get different keys, when no input collides with an honest input of the first. *)
Theorem C02_injective : forall H L, 0 < L -> (forall l o d b x, length (H l o d b x) = KS) ->
  forall c1 c2, nocoll H L (split_leaves L c1) -> tree_key H L c1 = tree_key H L c2 -> c1 = c2.
Proof. exact tree_key_injective. Qed.
Print Assumptions C02_injective.

(* After a Put into a clean store the store holds the object. *)
Theorem C02_put_holds : forall H L, 0 < L -> forall chunks s r,
  nocoll H L (split_leaves L (concat chunks)) ->
  clean s (blob_writes H L (split_leaves L (concat chunks))) ->
  put H L chunks s = Ok r -> holds H L (pr_store r) (concat chunks).
Proof. exact put_holds. Qed.
Print Assumptions C02_put_holds.
