(* C02 - object keys are a deterministic tree hash of the content.
   Statements only; proofs are in Proofs/CafsWriter.v and Proofs/CafsStore.v. *)
From Coq Require Import List NArith Arith Bool.
From DM Require Import Model.Cafs Proofs.CafsWriter.
Import ListNotations.

(* The key returned by Put is tree_key of the content: a function of the content and the leaf
   size only - for every chunking of the source and every prior store content. *)
Theorem C02_key_function : forall H L, 0 < L -> forall chunks s,
  exists r, put H L chunks s = Ok r /\ pr_key r = tree_key H L (concat chunks).
Proof.
  intros H L HL chunks s. destruct (put_key H L HL chunks s) as [r [E [_ [K _]]]]. exists r. auto.
Qed.
Print Assumptions C02_key_function.
