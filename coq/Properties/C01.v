(* C01 - the content store returns exactly the bytes that were stored.
   Statements only; proofs are in Proofs/CafsWriter.v, CafsPut.v, CafsReadAt.v, CafsReadSeq*.v,
   CafsWriteTo.v, CafsRoundTrip.v.  H is any hash with 64-byte digests, L any positive leaf size. *)
From Coq Require Import List NArith Arith Bool.
From DM Require Import Model.Cafs Proofs.CafsWriter Proofs.CafsStore Proofs.CafsPut Proofs.CafsRoundTrip
  Proofs.CafsExample.
Import ListNotations.

(* Whatever chunks the source hands over and whatever the store holds: Put terminates, reports
   the content length, and lays the content out as leaves of exactly L bytes (the last one
   shorter and non-empty) whose concatenation is the content. *)
Theorem C01_put : forall H L, 0 < L -> forall chunks s,
  exists r, put H L chunks s = Ok r /\
    pr_written r = length (concat chunks) /\
    pr_key r = tree_key H L (concat chunks) /\
    pr_keys r = keys_of_leaves H L 0 (split_leaves L (concat chunks)).
Proof. exact put_key. Qed.
Print Assumptions C01_put.

Theorem C01_chunking_irrelevant : forall H L, 0 < L -> forall chunks s,
  match put H L chunks s, put H L [concat chunks] s with
  | Ok r1, Ok r2 => pr_key r1 = pr_key r2 /\ pr_keys r1 = pr_keys r2 /\ pr_written r1 = pr_written r2
  | _, _ => False
  end.
Proof. exact put_chunking_irrelevant. Qed.
Print Assumptions C01_chunking_irrelevant.

Theorem C01_layout : forall L, 0 < L -> forall c, concat (split_leaves L c) = c.
Proof. exact split_leaves_concat. Qed.
Print Assumptions C01_layout.

(* The full statement.  For every chunking of the source, every store that does not already hold
   a conflicting non-empty blob under one of the object's keys (clean), and a hash none of whose
   honest inputs for this content collides with any other input (nocoll): Put succeeds and
   reports the content length; ReadAt returns the requested window for every offset and length
   (past EOF: nothing); sequential Read with any positive buffer sizes and any legal behaviour of
   the leaf streams delivers exactly the content; WriteTo through a WriterAt, leaves copied in any
   order, leaves exactly the content in the destination. *)
Theorem C01_roundtrip : forall H L, 0 < L ->
  (forall l o d b x, length (H l o d b x) = KS) ->
  forall chunks s,
  nocoll H L (split_leaves L (concat chunks)) ->
  clean s (blob_writes H L (split_leaves L (concat chunks))) ->
  exists r, put H L chunks s = Ok r /\
    let c := concat chunks in let s' := pr_store r in let key := pr_key r in
    pr_written r = length c /\
    (forall off want, read_at H L key s' off want = Ok (firstn want (skipn off c))) /\
    (forall bufs orc, Forall (fun k => 0 < k) bufs -> length c < length bufs ->
       read_seq H L key s' bufs orc = Ok c) /\
    (forall jobs, (forall j, In j jobs <-> In j (index_from 0 (pr_keys r))) ->
       exists f', write_to_at H L s' (length (pr_keys r)) jobs [] = Ok f' /\
                  forall x, file_get f' x = nth_error c x).
Proof. exact cafs_roundtrip. Qed.
Print Assumptions C01_roundtrip.

(* the premises are satisfiable: a concrete 64-byte hash, content and store meet them *)
Theorem C01_premises_satisfiable :
  (forall l o d b x, length (H0 l o d b x) = KS) /\
  nocoll H0 2 (split_leaves 2 c0) /\
  clean [] (blob_writes H0 2 (split_leaves 2 c0)).
Proof. exact hypotheses_satisfiable. Qed.
Print Assumptions C01_premises_satisfiable.
