(* C01 - the content store returns exactly the bytes that were stored.
   Statements only; proofs are in Proofs/CafsWriter.v and Proofs/CafsReader.v.
   H is an arbitrary hash function, L any positive leaf size. *)
From Coq Require Import List NArith Arith Bool.
From DM Require Import Model.Cafs Proofs.CafsWriter.
Import ListNotations.

(* Whatever chunks the source hands over and whatever the store holds: Put terminates, reports
   the content length, and lays the content out as leaves of exactly L bytes (the last one
   shorter and non-empty) whose concatenation is the content. *)
Theorem C01_put : forall H L, 0 < L -> forall chunks s,
  exists r, put H L chunks s = Ok r /\
    pr_written r = length (concat chunks) /\
    pr_key r = tree_key H L (concat chunks) /\
    pr_keys r = keys_of_leaves H L 0 (split_leaves L (concat chunks)).
Proof. exact put_key. Qed.
Print Assumptions C01_put.

Theorem C01_chunking_irrelevant : forall H L, 0 < L -> forall chunks s,
  match put H L chunks s, put H L [concat chunks] s with
  | Ok r1, Ok r2 => pr_key r1 = pr_key r2 /\ pr_keys r1 = pr_keys r2 /\ pr_written r1 = pr_written r2
  | _, _ => False
  end.
Proof. exact put_chunking_irrelevant. Qed.
Print Assumptions C01_chunking_irrelevant.

Theorem C01_layout : forall L, 0 < L -> forall c, concat (split_leaves L c) = c.
Proof. exact split_leaves_concat. Qed.
Print Assumptions C01_layout.
