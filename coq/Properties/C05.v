(* C05 - bundle diff and in-place update are exact.
   Statements only; proofs are in Proofs/DiffProofs.v. *)
From Coq Require Import List String NArith Bool.
From DM Require Import Model.Meta Model.Diff Proofs.DiffProofs.
Import ListNotations.
Open Scope list_scope.

(* For any two bundles (entries with distinct paths on each side) the diff contains exactly the
   added paths, the removed paths and the paths whose key changed... *)
Theorem C05_diff_exact : forall a b x, NoDup (map e_name a) -> NoDup (map e_name b) ->
  In x (diff a b) <-> in_spec a b x.
Proof. exact diff_exact. Qed.
Print Assumptions C05_diff_exact.

(* ... each path at most once. *)
Theorem C05_diff_once : forall a b, NoDup (map e_name a) -> NoDup (map e_name b) ->
  NoDup (map snd (diff a b)).
Proof. exact diff_names_nodup. Qed.
Print Assumptions C05_diff_once.

(* Updating a local copy of a to b leaves, for every path, exactly what a download of b holds. *)
Theorem C05_update : forall a b, NoDup (map e_name a) -> NoDup (map e_name b) ->
  forall n, dget n (update a b (dir_of a)) = dget n (dir_of b).
Proof. exact update_exact. Qed.
Print Assumptions C05_update.
