#!/usr/bin/env python3
"""Regenerates MANIFEST.json from props.py (claimed checks) and properties.jsonl."""
import json, os, subprocess
from props import PROPS
here = os.path.dirname(os.path.abspath(__file__))
ids = [json.loads(l)["id"] for l in open(os.path.join(here, "properties.jsonl")) if l.strip()]
BASE = json.load(open("/root/.vp/BASELINE.json"))["cmd"] if os.path.exists("/root/.vp/BASELINE.json") else ""
hooks_commits = subprocess.run(["git", "-C", "/repo", "log", "--format=%H %s", "--grep=^verif:"], capture_output=True, text=True).stdout.strip().split("\n")
checks = []
for pid in ids:
    if pid not in PROPS:
        continue
    P = PROPS[pid]
    checks.append(dict(
        property_id=pid,
        quick_cmd="./check %s --tier quick" % pid,
        thorough_cmd="./check %s --tier thorough" % pid,
        evidence_file="evidence/%s.json" % pid,
        replay_cmd_template="./check %s --replay {path}" % pid,
        engine="coq-proof+correspondence",
        level_claimed=dict(category="proof", text=P["level_text"], design_ref=P.get("design_ref", "DESIGN.md section 2, " + pid)),
        level_note=P["level_note"],
        technique=P.get("technique", "Coq 8.16 theorems over an executable Gallina model; model tied to the Go code by a differential correspondence check evaluated with vm_compute"),
    ))
na = [dict(property_id=pid, reason="check not built yet in this development (no technique-based exclusion; see DESIGN.md)") for pid in ids if pid not in PROPS]
m = dict(
    version=1,
    setup_cmd="./check --setup",
    hooks=dict(guard="verif", enable="go build -tags verif (add-only *_verif.go files in /repo)",
               baseline_off_cmd=BASE, source_commits=[c.split()[0] for c in hooks_commits if c], add_only=True),
    engines=[dict(name="coq-proof+correspondence", path="coq/ harness/ check", serves_properties=[c["property_id"] for c in checks],
                  kind_free_text="Coq 8.16.1 development (models, proofs, property theorems) + Go differential harness + python driver")],
    checks=checks,
    notes="see DESIGN.md; known_findings.json lists genuine defects recorded or fixed",
    not_applicable=na,
)
json.dump(m, open(os.path.join(here, "MANIFEST.json"), "w"), indent=1)
print("checks:", len(checks), "not claimed:", len(na))
